//! C13–C16: Database::merge on replica pairs derived from a common ancestor, against `KpModel/Db/Merge.lean`.
use crate::dump;
use crate::panicx::catch;
use crate::rng::Rng;
use crate::Ctx;
use keepass::db::*;
use keepass::Database;
use serde_json::{json, Value as J};
use std::collections::HashMap;
use uuid::Uuid;

thread_local! {
    /// a sub-second offset (in milliseconds) added to every clock reading `ts` hands out: edit histories normally run on whole
    /// seconds, some pairs put the two replicas at different instants of the same second
    static SUB_MS: std::cell::Cell<u32> = std::cell::Cell::new(0);
}
fn ts(secs: i64) -> chrono::NaiveDateTime {
    chrono::DateTime::from_timestamp(secs, SUB_MS.with(|c| c.get()) * 1_000_000).unwrap().naive_utc()
}
fn uid(n: u64) -> Uuid {
    Uuid::from_u128(n as u128)
}
fn idn(u: &Uuid) -> u64 {
    u.as_u128() as u64
}

fn set_times(t: &mut Times, at: i64) {
    t.times.clear();
    t.set_creation(ts(at));
    t.set_last_modification(ts(at));
    t.set_last_access(ts(at));
    t.set_location_changed(ts(at));
    t.set_expiry(ts(at));
}

fn new_entry(id: u64, at: i64, title: &str) -> Entry {
    let mut e = Entry::default();
    e.uuid = uid(id);
    set_times(&mut e.times, at);
    e.fields.insert("Title".into(), Value::Unprotected(title.into()));
    let mut h = History::default();
    h.add_entry(e.clone());
    e.history = Some(h);
    e
}
fn new_group(id: u64, at: i64, name: &str) -> Group {
    let mut g = Group::default();
    g.uuid = uid(id);
    g.name = name.into();
    set_times(&mut g.times, at);
    g
}

/// root(1){ e(10), G1(2){ e(11), S1(3){} }, G2(4){} }
fn ancestor() -> Database {
    let mut db = Database::new(Default::default());
    db.root = new_group(1, 100, "Root");
    db.root.children.push(Node::Entry(new_entry(10, 100, "e10")));
    let mut g1 = new_group(2, 100, "G1");
    g1.children.push(Node::Entry(new_entry(11, 100, "e11")));
    g1.children.push(Node::Group(new_group(3, 100, "S1")));
    db.root.children.push(Node::Group(g1));
    db.root.children.push(Node::Group(new_group(4, 100, "G2")));
    db
}

#[derive(Clone, Debug)]
pub enum Edit {
    EditEntry(u64),            // change a field and commit (history item, mtime)
    EditEntryUncommitted(u64), // change a field and the mtime, no history item
    SetEntry(u64, u8),         // set a field to one of two fixed values and commit: reverts and identical edits on both sides
    AddEntry(u64),             // under group
    AddGroup(u64),             // under group
    MoveEntry(u64, u64),       // entry -> group
    MoveGroup(u64, u64),       // group -> group
    DeleteEntry(u64),
    DeleteGroup(u64, bool), // recursive delete; bool = tombstones parent-first
    RenameGroup(u64),
    TouchGroup(u64), // change mtime only
    ToggleGroupExpiry(u64),  // flip the group's expiry flag, bump its usage count, set expiry and modification time
    ToggleEntryExpiry(u64),  // the same for an entry (committed to the history)
    EditEntryNoHistory(u64), // a writer that records no history: history = None, a field and the modification time change
    SetEntryUncommitted(u64, u8), // one of two fixed values, new modification time, not committed to the history (a revert to an older value is possible)
    EditEntrySilently(u64),  // a field changes, the modification time does not, nothing is committed (a careless writer)
    UseEntry(u64),           // merely used: usage count and last access time change, nothing else
    UseGroup(u64),           // the same for a group
    TweakEntryUncommitted(u64), // an attribute that is not a field changes (quality-check flag, tags, icon, override URL), new modification time, not committed
}

fn find_group_mut<'a>(g: &'a mut Group, id: u64) -> Option<&'a mut Group> {
    if idn(&g.uuid) == id {
        return Some(g);
    }
    for c in g.children.iter_mut() {
        if let Node::Group(cg) = c {
            if let Some(r) = find_group_mut(cg, id) {
                return Some(r);
            }
        }
    }
    None
}
fn find_entry_mut<'a>(g: &'a mut Group, id: u64) -> Option<&'a mut Entry> {
    for c in g.children.iter_mut() {
        match c {
            Node::Entry(e) if idn(&e.uuid) == id => return Some(e),
            Node::Group(cg) => {
                if let Some(r) = find_entry_mut(cg, id) {
                    return Some(r);
                }
            }
            _ => {}
        }
    }
    None
}
fn take_node(g: &mut Group, id: u64) -> Option<Node> {
    if let Some(pos) = g.children.iter().position(|c| match c {
        Node::Entry(e) => idn(&e.uuid) == id,
        Node::Group(x) => idn(&x.uuid) == id,
    }) {
        return Some(g.children.remove(pos));
    }
    for c in g.children.iter_mut() {
        if let Node::Group(cg) = c {
            if let Some(r) = take_node(cg, id) {
                return Some(r);
            }
        }
    }
    None
}
fn contains_group(g: &Group, id: u64) -> bool {
    idn(&g.uuid) == id || g.children.iter().any(|c| matches!(c, Node::Group(x) if contains_group(x, id)))
}
fn collect(g: &Group, groups: &mut Vec<u64>, entries: &mut Vec<u64>) {
    for c in &g.children {
        match c {
            Node::Entry(e) => entries.push(idn(&e.uuid)),
            Node::Group(x) => {
                groups.push(idn(&x.uuid));
                collect(x, groups, entries);
            }
        }
    }
}
fn tombstone_all(g: &Group, at: i64, out: &mut Vec<DeletedObject>) {
    for c in &g.children {
        match c {
            Node::Entry(e) => out.push(DeletedObject { uuid: e.uuid, deletion_time: ts(at) }),
            Node::Group(x) => {
                out.push(DeletedObject { uuid: x.uuid, deletion_time: ts(at) });
                tombstone_all(x, at, out);
            }
        }
    }
}

/// apply one edit at logical time `at`; returns false when the edit does not apply to the current state
pub fn apply(db: &mut Database, ed: &Edit, at: i64, fresh: &mut u64) -> bool {
    match ed {
        Edit::EditEntry(id) => {
            if let Some(e) = find_entry_mut(&mut db.root, *id) {
                e.fields.insert("UserName".into(), Value::Unprotected(format!("u@{}", at)));
                e.times.set_last_modification(ts(at));
                let snap = e.clone();
                if e.history.is_none() {
                    e.history = Some(History::default());
                }
                e.history.as_mut().unwrap().add_entry(snap);
                true
            } else {
                false
            }
        }
        Edit::SetEntry(id, v) => {
            if let Some(e) = find_entry_mut(&mut db.root, *id) {
                e.fields.insert("UserName".into(), Value::Unprotected(format!("fixed{}", v)));
                e.times.set_last_modification(ts(at));
                let snap = e.clone();
                if e.history.is_none() {
                    e.history = Some(History::default());
                }
                e.history.as_mut().unwrap().add_entry(snap);
                true
            } else {
                false
            }
        }
        Edit::SetEntryUncommitted(id, v) => {
            if let Some(e) = find_entry_mut(&mut db.root, *id) {
                e.fields.insert("UserName".into(), Value::Unprotected(format!("fixed{}", v)));
                e.times.set_last_modification(ts(at));
                true
            } else {
                false
            }
        }
        Edit::EditEntrySilently(id) => {
            if let Some(e) = find_entry_mut(&mut db.root, *id) {
                e.fields.insert("URL".into(), Value::Unprotected(format!("silent@{}", at)));
                true
            } else {
                false
            }
        }
        Edit::UseEntry(id) => {
            if let Some(e) = find_entry_mut(&mut db.root, *id) {
                e.times.usage_count += 1;
                e.times.set_last_access(ts(at));
                true
            } else {
                false
            }
        }
        Edit::TweakEntryUncommitted(id) => {
            if let Some(e) = find_entry_mut(&mut db.root, *id) {
                match (*id + at as u64) % 4 {
                    0 => e.quality_check = Some(!e.quality_check.unwrap_or(true)),
                    1 => e.tags.push(format!("tag{}", at)),
                    2 => e.icon_id = Some(at as usize % 60),
                    _ => e.override_url = Some(format!("cmd://{}", at)),
                }
                e.times.set_last_modification(ts(at));
                true
            } else {
                false
            }
        }
        Edit::UseGroup(id) => {
            if let Some(g) = find_group_mut(&mut db.root, *id) {
                g.times.usage_count += 1;
                g.times.set_last_access(ts(at));
                true
            } else {
                false
            }
        }
        Edit::EditEntryUncommitted(id) => {
            if let Some(e) = find_entry_mut(&mut db.root, *id) {
                e.fields.insert("Notes".into(), Value::Unprotected(format!("n@{}", at)));
                e.times.set_last_modification(ts(at));
                true
            } else {
                false
            }
        }
        Edit::AddEntry(gid) => {
            let id = *fresh;
            *fresh += 1;
            if let Some(g) = find_group_mut(&mut db.root, *gid) {
                g.children.push(Node::Entry(new_entry(id, at, &format!("new{}", id))));
                true
            } else {
                false
            }
        }
        Edit::AddGroup(gid) => {
            let id = *fresh;
            *fresh += 1;
            if let Some(g) = find_group_mut(&mut db.root, *gid) {
                g.children.push(Node::Group(new_group(id, at, &format!("ng{}", id))));
                true
            } else {
                false
            }
        }
        Edit::MoveEntry(id, gid) => {
            if find_group_mut(&mut db.root, *gid).is_none() || find_entry_mut(&mut db.root, *id).is_none() {
                return false;
            }
            let mut n = take_node(&mut db.root, *id).unwrap();
            if let Node::Entry(e) = &mut n {
                e.times.set_location_changed(ts(at));
            }
            find_group_mut(&mut db.root, *gid).unwrap().children.push(n);
            true
        }
        Edit::MoveGroup(id, gid) => {
            if *id == idn(&db.root.uuid) || id == gid {
                return false;
            }
            let ok = match find_group_mut(&mut db.root, *id) {
                Some(g) => !contains_group(g, *gid),
                None => false,
            };
            if !ok || find_group_mut(&mut db.root, *gid).is_none() {
                return false;
            }
            let mut n = take_node(&mut db.root, *id).unwrap();
            if let Node::Group(g) = &mut n {
                g.times.set_location_changed(ts(at));
            }
            find_group_mut(&mut db.root, *gid).unwrap().children.push(n);
            true
        }
        Edit::DeleteEntry(id) => {
            if find_entry_mut(&mut db.root, *id).is_none() {
                return false;
            }
            take_node(&mut db.root, *id);
            db.deleted_objects.objects.push(DeletedObject { uuid: uid(*id), deletion_time: ts(at) });
            true
        }
        Edit::DeleteGroup(id, parent_first) => {
            if *id == idn(&db.root.uuid) || find_group_mut(&mut db.root, *id).is_none() {
                return false;
            }
            if let Some(Node::Group(g)) = take_node(&mut db.root, *id) {
                let mut inner = Vec::new();
                tombstone_all(&g, at, &mut inner);
                let own = DeletedObject { uuid: g.uuid, deletion_time: ts(at) };
                if *parent_first {
                    db.deleted_objects.objects.push(own);
                    db.deleted_objects.objects.extend(inner);
                } else {
                    inner.reverse();
                    db.deleted_objects.objects.extend(inner);
                    db.deleted_objects.objects.push(own);
                }
            }
            true
        }
        Edit::RenameGroup(id) => {
            if let Some(g) = find_group_mut(&mut db.root, *id) {
                g.name = format!("{}@{}", g.name.split('@').next().unwrap(), at);
                // every other setting of the group changes with it, each to a value of its own (a swapped pair of fields shows)
                g.notes = Some(format!("notes@{}", at));
                g.icon_id = Some(at as usize % 60);
                g.custom_icon_uuid = Some(uuid::Uuid::from_u128(0xc000_0000 + at as u128));
                g.is_expanded = at % 2 == 0;
                g.default_autotype_sequence = Some(format!("{{USERNAME}}{{TAB}}{}", at));
                g.enable_autotype = Some(if at % 3 == 0 { "null".to_string() } else { format!("a{}", at % 2) });
                g.enable_searching = Some(format!("s{}", at % 2 == 0));
                g.last_top_visible_entry = Some(uuid::Uuid::from_u128(0xd000_0000 + at as u128));
                g.custom_data.items.insert(format!("k{}", at % 3), keepass::db::CustomDataItem { value: Some(keepass::db::Value::Unprotected(format!("v{}", at))), last_modification_time: None });
                g.times.set_last_modification(ts(at));
                true
            } else {
                false
            }
        }
        Edit::TouchGroup(id) => {
            if let Some(g) = find_group_mut(&mut db.root, *id) {
                g.times.set_last_modification(ts(at));
                true
            } else {
                false
            }
        }
        Edit::ToggleGroupExpiry(id) => {
            if let Some(g) = find_group_mut(&mut db.root, *id) {
                g.times.expires = !g.times.expires;
                g.times.usage_count += 1;
                g.times.set_expiry(ts(at + 500));
                g.times.set_last_modification(ts(at));
                true
            } else {
                false
            }
        }
        Edit::ToggleEntryExpiry(id) => {
            if let Some(e) = find_entry_mut(&mut db.root, *id) {
                e.times.expires = !e.times.expires;
                e.times.usage_count += 1;
                e.times.set_expiry(ts(at + 500));
                e.times.set_last_modification(ts(at));
                let snap = e.clone();
                if e.history.is_none() {
                    e.history = Some(History::default());
                }
                e.history.as_mut().unwrap().add_entry(snap);
                true
            } else {
                false
            }
        }
        Edit::EditEntryNoHistory(id) => {
            if let Some(e) = find_entry_mut(&mut db.root, *id) {
                e.history = None;
                e.fields.insert("URL".into(), Value::Unprotected(format!("https://{}", at)));
                e.times.set_last_modification(ts(at));
                true
            } else {
                false
            }
        }
    }
}

/// the edits applicable to a database, enumerated in a fixed order
pub fn alphabet(db: &Database) -> Vec<Edit> {
    let mut groups = vec![idn(&db.root.uuid)];
    let mut entries = Vec::new();
    collect(&db.root, &mut groups, &mut entries);
    let mut out = Vec::new();
    for e in &entries {
        out.push(Edit::EditEntry(*e));
        out.push(Edit::EditEntryUncommitted(*e));
        out.push(Edit::SetEntry(*e, 0));
        out.push(Edit::SetEntry(*e, 1));
        out.push(Edit::DeleteEntry(*e));
        out.push(Edit::ToggleEntryExpiry(*e));
        out.push(Edit::EditEntryNoHistory(*e));
        out.push(Edit::SetEntryUncommitted(*e, 1));
        out.push(Edit::EditEntrySilently(*e));
        out.push(Edit::UseEntry(*e));
        out.push(Edit::TweakEntryUncommitted(*e));
        for g in &groups {
            out.push(Edit::MoveEntry(*e, *g));
        }
    }
    for g in &groups {
        out.push(Edit::AddEntry(*g));
        out.push(Edit::AddGroup(*g));
        out.push(Edit::RenameGroup(*g));
        out.push(Edit::TouchGroup(*g));
        out.push(Edit::ToggleGroupExpiry(*g));
        out.push(Edit::UseGroup(*g));
        if *g != idn(&db.root.uuid) {
            out.push(Edit::DeleteGroup(*g, true));
            out.push(Edit::DeleteGroup(*g, false));
            for h in &groups {
                out.push(Edit::MoveGroup(*g, *h));
            }
        }
    }
    out
}

struct Intern {
    content: HashMap<String, u64>,
    other: HashMap<String, u64>,
}
impl Intern {
    fn c(&mut self, j: J) -> u64 {
        let s = serde_json::to_string(&j).unwrap();
        let n = self.content.len() as u64;
        *self.content.entry(s).or_insert(n)
    }
    fn times(&mut self, t: &Times) -> J {
        let mut t2 = t.clone();
        t2.times.remove("LastModificationTime");
        t2.times.remove("LocationChanged");
        let s = serde_json::to_string(&dump::times(&t2)).unwrap();
        let n = self.other.len() as u64;
        let o = *self.other.entry(s).or_insert(n);
        json!({
            "m": t.get_last_modification().map(|x| x.and_utc().timestamp_millis()),
            "l": t.get_location_changed().map(|x| x.and_utc().timestamp_millis()),
            "o": o,
        })
    }
    fn edata(&mut self, e: &Entry) -> J {
        let mut c = dump::entry_content(e);
        c.as_object_mut().unwrap().remove("uuid");
        json!({"u": idn(&e.uuid), "c": self.c(c), "t": self.times(&e.times)})
    }
    fn entry(&mut self, e: &Entry) -> J {
        let mut j = self.edata(e);
        j["h"] = match &e.history {
            None => J::Null,
            Some(h) => J::Array(h.get_entries().iter().map(|x| self.edata(x)).collect()),
        };
        j
    }
    fn group(&mut self, g: &Group) -> J {
        let mut c = dump::group_content(g);
        c.as_object_mut().unwrap().remove("uuid");
        let cs: Vec<J> = g
            .children
            .iter()
            .map(|n| match n {
                Node::Group(x) => json!({"g": self.group(x)}),
                Node::Entry(e) => json!({"e": self.entry(e)}),
            })
            .collect();
        json!({"u": idn(&g.uuid), "c": self.c(c), "t": self.times(&g.times), "ch": cs})
    }
    fn db(&mut self, d: &Database) -> J {
        json!({
            "root": self.group(&d.root),
            "tombs": d.deleted_objects.objects.iter().map(|o| json!([idn(&o.uuid), o.deletion_time.and_utc().timestamp_millis()])).collect::<Vec<_>>(),
        })
    }
}

fn ev_name(dbg: &str) -> String {
    // event types live in a crate-private module: observe them through their Debug rendering
    let mut c = dbg.chars();
    match c.next() {
        Some(f) => f.to_lowercase().collect::<String>() + c.as_str(),
        None => String::new(),
    }
}

/// run `dst.merge(src)` on a clone under a watchdog; returns (outcome, resulting db, events) or "timeout"
fn guarded_merge(dst: &Database, src: &Database, it: &mut Intern) -> (J, Option<Database>) {
    let (tx, rx) = std::sync::mpsc::channel();
    let (d, s) = (dst.clone(), src.clone());
    std::thread::spawn(move || {
        let mut d = d;
        let r = crate::panicx::catch_nowd(|| d.merge(&s));
        let _ = tx.send((r.map(|x| x.map(|l| l.events.iter().map(|e| (ev_name(&format!("{:?}", e.event_type)), idn(&e.node_uuid))).collect::<Vec<_>>()).map_err(|e| format!("{:?}", e))), d));
    });
    match rx.recv_timeout(std::time::Duration::from_secs(3)) {
        Err(_) => (json!({"outcome": "timeout"}), None),
        Ok((Err(p), _)) => (json!({"outcome": format!("panic:{}", p.site())}), None),
        Ok((Ok(Err(e)), _)) => {
            let kind = e.split('(').next().unwrap_or("?").to_string();
            (json!({"outcome": format!("err:{}", kind)}), None)
        }
        Ok((Ok(Ok(evs)), d)) => (
            json!({"outcome": "ok", "events": evs.iter().map(|(t, u)| json!([t, u])).collect::<Vec<_>>(), "db": it.db(&d)}),
            Some(d),
        ),
    }
}

fn run_pair(ctx: &mut Ctx, ea: &[Edit], eb: &[Edit], tags: Vec<String>) -> bool {
    run_pair_t(ctx, ea, eb, tags, false)
}

/// `tie`: the two replicas use the same clock readings (the i-th edit of either side happens in the same second)
fn run_pair_t(ctx: &mut Ctx, ea: &[Edit], eb: &[Edit], tags: Vec<String>, tie: bool) -> bool {
    run_pair_on(ctx, &ancestor(), ea, eb, tags, tie)
}

/// a common ancestor whose groups all live below one top-level group: root(1){ T(2){ random nesting of groups 3..n, an entry each second group } }
fn deep_ancestor(rng: &mut Rng, n: u64) -> Database {
    let mut db = Database::new(Default::default());
    db.root = new_group(1, 100, "Root");
    db.root.children.push(Node::Group(new_group(2, 100, "T")));
    for id in 3..=n {
        let parent = rng.range(2, id - 1);
        let mut g = new_group(id, 100, &format!("g{}", id));
        if id % 2 == 0 {
            g.children.push(Node::Entry(new_entry(100 + id, 100, &format!("e{}", id))));
        }
        find_group_mut(&mut db.root, parent).unwrap().children.push(Node::Group(g));
    }
    db
}

/// root(1){ T(2){ g3, g4, …, gn } }
fn flat_ancestor(n: u64) -> Database {
    let mut db = Database::new(Default::default());
    db.root = new_group(1, 100, "Root");
    let mut t = new_group(2, 100, "T");
    for id in 3..=n {
        t.children.push(Node::Group(new_group(id, 100, &format!("g{}", id))));
    }
    db.root.children.push(Node::Group(t));
    db
}

fn run_pair_on(ctx: &mut Ctx, anc: &Database, ea: &[Edit], eb: &[Edit], tags: Vec<String>, tie: bool) -> bool {
    run_pair_at(ctx, anc, ea, eb, tags, if tie { 101 } else { 102 })
}

/// `b0`: the clock reading of the source side's first edit (the destination side's edits happen at 101, 103, …)
fn run_pair_at(ctx: &mut Ctx, anc: &Database, ea: &[Edit], eb: &[Edit], tags: Vec<String>, b0: i64) -> bool {
    run_pair_sub(ctx, anc, ea, eb, tags, b0, 0, 0)
}

/// `ms_a`, `ms_b`: the sub-second instant (milliseconds) of the destination side's and of the source side's edits
fn run_pair_sub(ctx: &mut Ctx, anc: &Database, ea: &[Edit], eb: &[Edit], tags: Vec<String>, b0: i64, ms_a: u32, ms_b: u32) -> bool {
    let mut a = anc.clone();
    let mut b = anc.clone();
    let (mut fa, mut fb) = (1000u64, 2000u64);
    let mut ok = true;
    SUB_MS.with(|c| c.set(ms_a));
    for (i, e) in ea.iter().enumerate() {
        ok &= apply(&mut a, e, 101 + 2 * i as i64, &mut fa);
    }
    SUB_MS.with(|c| c.set(ms_b));
    for (i, e) in eb.iter().enumerate() {
        ok &= apply(&mut b, e, b0 + 2 * i as i64, &mut fb);
    }
    SUB_MS.with(|c| c.set(0));
    if !ok {
        return true;
    }
    run_pair_dbs(ctx, &a, &b, ea.iter().map(|e| format!("{:?}", e)).collect(), eb.iter().map(|e| format!("{:?}", e)).collect(), tags)
}

/// merge `b` into `a` (and again, and the result into itself, and `a` into itself) and emit the case
fn run_pair_dbs(ctx: &mut Ctx, a: &Database, b: &Database, edits_a: Vec<String>, edits_b: Vec<String>, tags: Vec<String>) -> bool {
    let (a, b) = (a.clone(), b.clone());
    let mut it = Intern { content: HashMap::new(), other: HashMap::new() };
    let dst_j = it.db(&a);
    let src_j = it.db(&b);
    let t0 = Times::now().and_utc().timestamp_millis();
    let (m1, d1) = guarded_merge(&a, &b, &mut it);
    let timed_out = m1["outcome"] == "timeout";
    let (m2, ms) = match &d1 {
        Some(d) => {
            let (m2, _) = guarded_merge(d, &b, &mut it);
            let (ms, _) = guarded_merge(d, d, &mut it);
            (m2, ms)
        }
        None => (J::Null, J::Null),
    };
    let (mself, _) = guarded_merge(&a, &a, &mut it);
    let nontrivial = m1["outcome"] != "ok" || m1["events"].as_array().map(|x| !x.is_empty()).unwrap_or(false) || !b.deleted_objects.objects.is_empty();
    ctx.emit(json!({
        "op": "merge", "now": t0,
        "edits_a": edits_a,
        "edits_b": edits_b,
        "dst": dst_j, "src": src_j,
        "tags": tags, "nontrivial": nontrivial,
        "real": {"m1": m1, "m2": m2, "mresult_self": ms, "mself": mself},
    }));
    !timed_out
}

pub fn run(ctx: &mut Ctx) {
    let base = ancestor();
    let alpha = alphabet(&base);
    let mut rng = ctx.rng.fork();
    // all pairs of single edits (incl. the empty history on either side)
    let mut singles: Vec<Vec<Edit>> = vec![vec![]];
    singles.extend(alpha.iter().map(|e| vec![e.clone()]));
    for ea in &singles {
        for eb in &singles {
            if !run_pair(ctx, ea, eb, vec!["pairs-1x1".into()]) {
                ctx.out_flush_and_exit();
            }
        }
    }
    // a deletion on the source side in the very second of a change of the same node on the destination side
    for ea in &singles {
        for eb in &singles {
            let same_node = match (ea.first(), eb.first()) {
                (Some(Edit::EditEntry(x)), Some(Edit::DeleteEntry(y))) | (Some(Edit::SetEntry(x, _)), Some(Edit::DeleteEntry(y)))
                | (Some(Edit::EditEntryUncommitted(x)), Some(Edit::DeleteEntry(y))) | (Some(Edit::RenameGroup(x)), Some(Edit::DeleteGroup(y, _)))
                | (Some(Edit::TouchGroup(x)), Some(Edit::DeleteGroup(y, _))) => x == y,
                _ => false,
            };
            if same_node && !run_pair_t(ctx, ea, eb, vec!["pairs-1x1-same-second".into()], true) {
                ctx.out_flush_and_exit();
            }
        }
    }
    // the same pairs at two instants of one second: the later instant wins although the seconds agree
    for ea in &singles {
        for eb in &singles {
            let same_node = match (ea.first(), eb.first()) {
                (Some(Edit::EditEntry(x)), Some(Edit::DeleteEntry(y))) | (Some(Edit::SetEntry(x, _)), Some(Edit::DeleteEntry(y)))
                | (Some(Edit::EditEntryUncommitted(x)), Some(Edit::DeleteEntry(y))) | (Some(Edit::RenameGroup(x)), Some(Edit::DeleteGroup(y, _)))
                | (Some(Edit::TouchGroup(x)), Some(Edit::DeleteGroup(y, _))) | (Some(Edit::EditEntry(x)), Some(Edit::EditEntry(y)))
                | (Some(Edit::RenameGroup(x)), Some(Edit::RenameGroup(y))) | (Some(Edit::MoveEntry(x, _)), Some(Edit::MoveEntry(y, _))) => x == y,
                _ => false,
            };
            if same_node {
                for (ms_a, ms_b) in [(200u32, 700u32), (700, 200)] {
                    if !run_pair_sub(ctx, &base, ea, eb, vec!["pairs-1x1-same-second-subsecond".into()], 101, ms_a, ms_b) {
                        ctx.out_flush_and_exit();
                    }
                }
            }
        }
    }
    // a revert that was not committed: the losing side's current value equals an older version of its own history
    for e in [10u64, 11] {
        let hist = vec![Edit::SetEntry(e, 1), Edit::SetEntry(e, 0), Edit::SetEntryUncommitted(e, 1)];
        for other in [vec![Edit::EditEntry(e)], vec![Edit::SetEntry(e, 0)], vec![]] {
            // the reverting side loses (the other side's edit is later) and wins (it is earlier)
            for (ea, eb, b0) in [(&hist, &other, 300i64), (&other, &hist, 300), (&hist, &other, 102)] {
                if !run_pair_at(ctx, &base, ea, eb, vec!["uncommitted-revert".into()], b0) {
                    ctx.out_flush_and_exit();
                }
            }
        }
    }
    // an ancestor whose nodes carry the earliest time stamp a KDBX4 file can hold (0001-01-01T00:00:00, what a writer stores for
    // "never"): every present-day deletion is later than that
    {
        const YEAR1: i64 = -62_135_596_800;
        let mut anc = Database::new(Default::default());
        anc.root = new_group(1, 100, "Root");
        anc.root.children.push(Node::Entry(new_entry(10, YEAR1, "e10")));
        let mut g1 = new_group(2, YEAR1, "G1");
        g1.children.push(Node::Entry(new_entry(11, YEAR1 + 1, "e11")));
        g1.children.push(Node::Group(new_group(3, YEAR1, "S1")));
        anc.root.children.push(Node::Group(g1));
        anc.root.children.push(Node::Group(new_group(4, YEAR1 + 86_400, "G2")));
        for eb in [vec![Edit::DeleteEntry(10)], vec![Edit::DeleteEntry(11)], vec![Edit::DeleteGroup(4, true)], vec![Edit::DeleteGroup(2, false)],
                   vec![Edit::DeleteGroup(3, true)], vec![Edit::EditEntry(10)], vec![Edit::RenameGroup(4)]] {
            for ea in [vec![], vec![Edit::UseEntry(10)], vec![Edit::EditEntry(11)]] {
                if !run_pair_at(ctx, &anc, &ea, &eb, vec!["year-one-ancestor".into()], 102) {
                    ctx.out_flush_and_exit();
                }
            }
        }
    }
    // three replicas: the pair that is merged got part of its state from earlier merges with a third replica (the source learnt an
    // older version after the destination had merged the source's newest one, …)
    for k in 0..ctx.count(60, 600) {
        let anc = ancestor();
        let mut reps = [anc.clone(), anc.clone(), anc.clone()];
        let mut fresh = [1000u64, 2000, 3000];
        let steps = 4 + (k % 5) as usize;
        let mut log: Vec<String> = Vec::new();
        let mut clock = 100i64;
        for _ in 0..steps {
            clock += 1;
            let r = rng.below(3) as usize;
            if rng.chance(2, 5) {
                let o = (r + 1 + rng.below(2) as usize) % 3;
                let other = reps[o].clone();
                if reps[r].merge(&other).is_ok() {
                    log.push(format!("r{}<-r{}", r, o));
                }
            } else {
                let e = *rng.pick(&[10u64, 11]);
                let ed = rng.pick(&[Edit::EditEntry(e), Edit::EditEntry(e), Edit::SetEntry(e, 1), Edit::EditEntryUncommitted(e), Edit::RenameGroup(2), Edit::MoveEntry(e, 4)]).clone();
                if apply(&mut reps[r], &ed, clock, &mut fresh[r]) {
                    log.push(format!("r{}:{:?}@{}", r, ed, clock));
                }
            }
        }
        let tag = vec!["three-replicas".to_string()];
        for (d, s_) in [(0usize, 1usize), (1, 0), (0, 2)] {
            if !run_pair_dbs(ctx, &reps[d], &reps[s_], log.clone(), vec![format!("merge r{}<-r{}", d, s_)], tag.clone()) {
                ctx.out_flush_and_exit();
            }
        }
    }
    // the source creates a group below an existing one and moves an existing entry (or group) into the new group, while the
    // destination deletes, renames or moves that existing group: the new group has no tombstone of its own
    for g in [3u64, 4] {
        for ea in [vec![Edit::DeleteGroup(g, true)], vec![Edit::RenameGroup(g)], vec![Edit::MoveGroup(g, if g == 3 { 4 } else { 2 })], vec![]] {
            for mv in [Edit::MoveEntry(10, 2000), Edit::MoveEntry(11, 2000), Edit::MoveGroup(if g == 3 { 4 } else { 3 }, 2000)] {
                let eb = vec![Edit::AddGroup(g), mv.clone()];
                for b0 in [102i64, 300] {
                    if !run_pair_at(ctx, &base, &ea, &eb, vec!["move-into-new-group".into()], b0) {
                        ctx.out_flush_and_exit();
                    }
                }
            }
        }
    }
    // a chain of nested empty groups, all deleted on the source side, tombstones listed outermost first or innermost first:
    // the work queue of merge_deletions has to come back to the outer groups again and again
    for d in 2..=ctx.count(6, 9) as u64 {
        let mut anc = Database::new(Default::default());
        anc.root = new_group(1, 100, "Root");
        anc.root.children.push(Node::Group(new_group(2, 100, "keep")));
        let mut chain = new_group(2 + d, 100, "c");
        for id in (3..2 + d).rev() {
            let mut g = new_group(id, 100, "c");
            g.children.push(Node::Group(chain));
            chain = g;
        }
        anc.root.children.push(Node::Group(chain));
        for parent_first in [true, false] {
            for ea in [vec![], vec![Edit::TouchGroup(2)], vec![Edit::AddGroup(2)]] {
                if !run_pair_at(ctx, &anc, &ea, &[Edit::DeleteGroup(3, parent_first)], vec![format!("deletion-chain:{}", d)], 102) {
                    ctx.out_flush_and_exit();
                }
            }
        }
    }
    // deletion-heavy histories on the source side (nested groups emptied and deleted, parent-first and child-first)
    for _ in 0..ctx.count(1500, 10000) {
        let lb = rng.range(3, 5) as usize;
        let mut db = ancestor();
        let mut fresh = 2000u64;
        let mut eb = Vec::new();
        for i in 0..lb {
            let al: Vec<Edit> = alphabet(&db).into_iter().filter(|e| matches!(e, Edit::AddGroup(_) | Edit::DeleteGroup(..) | Edit::DeleteEntry(_) | Edit::MoveEntry(..) | Edit::MoveGroup(..))).collect();
            if al.is_empty() {
                break;
            }
            let e = rng.pick(&al).clone();
            if apply(&mut db, &e, 1000 + i as i64, &mut fresh) {
                eb.push(e);
            }
        }
        let ea: Vec<Edit> = if rng.chance(1, 2) { vec![] } else { vec![rng.pick(&alpha).clone()] };
        if !run_pair(ctx, &ea, &eb, vec!["deletion-heavy".into()]) {
            ctx.out_flush_and_exit();
        }
    }
    // chains of moves that unblock each other in the wrong order: the destination nests G1{G2{T1, G3{T2, …}}}, the source
    // keeps T1 … Tm as siblings and moves Gi below Ti; the move of Gi is possible only after that of Gi+1 (m passes)
    for m in 2..=ctx.count(6, 9) as u64 {
        for b0 in [300i64, 102] {
            for extra_top in 0..2u64 {
                let mut anc = flat_ancestor(2 + 2 * m);
                for x in 0..extra_top {
                    anc.root.children.push(Node::Group(new_group(50 + x, 100, "top")));
                }
                let (g, t) = (|i: u64| 2 + i, |i: u64| 2 + m + i);
                let mut ea = Vec::new();
                for i in 2..=m {
                    ea.push(Edit::MoveGroup(g(i), g(i - 1)));
                    ea.push(Edit::MoveGroup(t(i - 1), g(i)));
                }
                let eb: Vec<Edit> = (1..=m).map(|i| Edit::MoveGroup(g(i), t(i))).collect();
                if !run_pair_at(ctx, &anc, &ea, &eb, vec!["unblocking-chain".into()], b0) {
                    ctx.out_flush_and_exit();
                }
            }
        }
    }
    // several group moves on both sides below a single top-level group (moves that unblock each other): the ancestor is
    // either nested at random or flat (all groups siblings), the destination side moves first, the source side later
    for k in 0..ctx.count(2500, 40000) {
        let n = 5 + (k % 4) as u64;
        let anc = if k % 3 == 0 { deep_ancestor(&mut rng, n) } else { flat_ancestor(n) };
        let moves = |rng: &mut Rng, len: usize, base: i64| -> Vec<Edit> {
            let mut db = anc.clone();
            let mut fresh = 5000u64;
            let mut out = Vec::new();
            for i in 0..len {
                let al: Vec<Edit> = alphabet(&db).into_iter().filter(|e| matches!(e, Edit::MoveGroup(g, h) if *g != 2 && *h != 1)).collect();
                if al.is_empty() {
                    break;
                }
                let e = rng.pick(&al).clone();
                if apply(&mut db, &e, base + i as i64, &mut fresh) {
                    out.push(e);
                }
            }
            out
        };
        let lb = rng.range(2, 6) as usize;
        let la = if k % 3 == 0 { rng.below(2) as usize } else { rng.range(2, 6) as usize };
        let eb = moves(&mut rng, lb, 1000);
        let ea = moves(&mut rng, la, 900);
        if !run_pair_at(ctx, &anc, &ea, &eb, vec!["deep-moves".into()], if k % 2 == 0 { 102 } else { 300 }) {
            ctx.out_flush_and_exit();
        }
    }
    // longer histories
    let nrand = ctx.count(2000, 20000);
    let exhaustive2 = ctx.thorough;
    let gen_hist = |rng: &mut Rng, len: usize, side_fresh: u64| -> Vec<Edit> {
        let mut db = ancestor();
        let mut fresh = side_fresh;
        let mut out = Vec::new();
        for i in 0..len {
            let al = alphabet(&db);
            let e = rng.pick(&al).clone();
            if apply(&mut db, &e, 1000 + i as i64, &mut fresh) {
                out.push(e);
            }
        }
        out
    };
    for _ in 0..nrand {
        let la = rng.below(4) as usize;
        let lb = rng.range(1, 4) as usize;
        let ea = gen_hist(&mut rng, la, 1000);
        let eb = gen_hist(&mut rng, lb, 2000);
        if !run_pair(ctx, &ea, &eb, vec!["random".into()]) {
            ctx.out_flush_and_exit();
        }
    }
    if exhaustive2 {
        // all pairs of histories of length <= 2 on the source side x length <= 1 on the destination side, and vice versa
        let mk_doubles = |base: u64| -> Vec<Vec<Edit>> {
            let mut doubles: Vec<Vec<Edit>> = Vec::new();
            for e1 in &alpha {
                let mut db = ancestor();
                let mut fresh = base;
                if !apply(&mut db, e1, 102, &mut fresh) {
                    continue;
                }
                for e2 in alphabet(&db) {
                    doubles.push(vec![e1.clone(), e2]);
                }
            }
            doubles
        };
        let (da, dbb) = (mk_doubles(1000), mk_doubles(2000));
        for e1 in &singles {
            for e2 in &dbb {
                if !run_pair(ctx, e1, e2, vec!["pairs-1x2".into()]) {
                    ctx.out_flush_and_exit();
                }
            }
            for e2 in &da {
                if !run_pair(ctx, e2, e1, vec!["pairs-2x1".into()]) {
                    ctx.out_flush_and_exit();
                }
            }
        }
    }
}
