//! C20: credentials -> composite key.  Independent reference derivation (KeePass documentation), the XML view of a
//! key file from the harness's own tokenizer run, and three observations of the real library:
//!  (1) `save` output authenticates under the reference composite, (2) `parse` of a file built by the independent
//!  builder under the reference composite succeeds with the credentials, (3) it fails once the composite is perturbed.
use crate::kdbx::{self, Inner, Kdbx4Spec, Kdf, Layout, Outer};
use crate::panicx::catch;
use crate::rng::Rng;
use crate::Ctx;
use keepass::config::*;
use keepass::db::*;
use keepass::{Database, DatabaseKey};
use serde_json::{json, Value as J};
use xml::reader::{EventReader, XmlEvent};

/// what the tokenizer makes of a key file: last text under KeyFile/Meta/Version and KeyFile/Key/Data
pub fn xml_view(buf: &[u8]) -> J {
    let mut stack: Vec<String> = Vec::new();
    let mut version: Option<String> = None;
    let mut data: Option<String> = None;
    for ev in EventReader::new(buf) {
        match ev {
            Err(_) => return json!("malformed"),
            Ok(XmlEvent::StartElement { name, .. }) => stack.push(name.local_name),
            Ok(XmlEvent::EndElement { .. }) => {
                stack.pop();
            }
            Ok(XmlEvent::Characters(s)) => {
                if stack == ["KeyFile", "Meta", "Version"] {
                    version = Some(s);
                } else if stack == ["KeyFile", "Key", "Data"] {
                    data = Some(s);
                }
            }
            _ => {}
        }
    }
    json!({"version": version, "data": data})
}

/// reference derivation of the key-file key, written from the KeePass documentation
fn ref_keyfile_key(buf: &[u8]) -> Vec<u8> {
    if let J::Object(v) = xml_view(buf) {
        if let Some(J::String(data)) = v.get("data") {
            let is_v2 = v.get("version").and_then(|x| x.as_str()) == Some("2.0");
            if is_v2 {
                let compact: String = data.chars().filter(|c| !c.is_whitespace()).collect();
                if let Ok(k) = hex::decode(&compact) {
                    return k;
                }
            } else {
                use base64::Engine;
                if let Ok(k) = base64::engine::general_purpose::STANDARD.decode(data.as_bytes()) {
                    return k;
                }
            }
            return data.as_bytes().to_vec();
        }
    }
    if buf.len() == 32 {
        buf.to_vec()
    } else {
        kdbx::sha256(&[buf])
    }
}

pub fn ref_elements(pw: &Option<String>, kf: &Option<Vec<u8>>) -> Vec<Vec<u8>> {
    let mut out = Vec::new();
    if let Some(p) = pw {
        out.push(kdbx::sha256(&[p.as_bytes()]));
    }
    if let Some(k) = kf {
        out.push(ref_keyfile_key(k));
    }
    out
}

pub fn ref_composite(pw: &Option<String>, kf: &Option<Vec<u8>>) -> Option<Vec<u8>> {
    let e = ref_elements(pw, kf);
    if e.is_empty() {
        return None;
    }
    let parts: Vec<&[u8]> = e.iter().map(|v| &v[..]).collect();
    Some(kdbx::sha256(&parts))
}

pub fn make_key(pw: &Option<String>, kf: &Option<Vec<u8>>) -> DatabaseKey {
    let mut k = DatabaseKey::new();
    // the builder calls commute: half of the keys are built key file first, password second
    let keyfile_first = kf.as_ref().map(|f| (f.len() + f.last().copied().unwrap_or(0) as usize) % 2 == 1).unwrap_or(false);
    if !keyfile_first {
        if let Some(p) = pw {
            k = k.with_password(p);
        }
    }
    if let Some(f) = kf {
        // now and then a wrong file is picked first and then corrected: the key holds the key file given last
        if uses_decoy(f) {
            k = k.with_keyfile(&mut &DECOY[..]).unwrap();
        }
        // the key file arrives through a reader that delivers it in pieces (a pipe, a chained reader): a conforming `Read`
        let cap = [usize::MAX, 1, 7, 512, 4096][(f.len() + f.first().copied().unwrap_or(0) as usize) % 5];
        k = k.with_keyfile(&mut PieceReader { data: f, pos: 0, cap }).unwrap();
    }
    if keyfile_first {
        if let Some(p) = pw {
            k = k.with_password(p);
        }
    }
    k
}

/// random bytes that are not XML, not 32 bytes long, and whose length and first byte make `make_key` deliver them in pieces of 4096 bytes
pub fn large_keyfile(rng: &mut Rng, len: usize) -> Vec<u8> {
    let mut b = rng.bytes(len);
    b[0] = ((4 + 5 - len % 5) % 5) as u8;
    b[1] = 0; // `uses_decoy` looks at this byte: no decoy for large files
    if uses_decoy(&b) {
        b[1] = 1;
    }
    b
}

/// what `make_key` hands the key first when it picks a wrong file
pub const DECOY: &[u8] = b"not the key file, picked by mistake";

/// whether `make_key` first hands the key a decoy key file (a function of the key file, so that it replays)
pub fn uses_decoy(f: &[u8]) -> bool {
    (f.len() + f.get(1).copied().unwrap_or(0) as usize) % 4 == 3
}

struct PieceReader<'a> {
    data: &'a [u8],
    pos: usize,
    cap: usize,
}
impl<'a> std::io::Read for PieceReader<'a> {
    fn read(&mut self, buf: &mut [u8]) -> std::io::Result<usize> {
        let n = buf.len().min(self.cap).min(self.data.len() - self.pos);
        buf[..n].copy_from_slice(&self.data[self.pos..self.pos + n]);
        self.pos += n;
        Ok(n)
    }
}

const PASSWORDS: &[&str] = &["", "a", "demopass", "pässwörd", "trailing ", " leading", "nul\0inside", "日本語", "A", "a\n"];
const WS: &[&str] = &[" ", "\n", "\r\n", "\t", "  \n\t ", "\u{a0}", ""];

fn hexkey(rng: &mut Rng, n: usize, upper: bool) -> String {
    let b = rng.bytes(n);
    if upper { hex::encode_upper(b) } else { hex::encode(b) }
}

fn gen_keyfile(rng: &mut Rng) -> (Vec<u8>, &'static str) {
    use base64::Engine;
    let b64 = |b: &[u8]| base64::engine::general_purpose::STANDARD.encode(b);
    let between = |rng: &mut Rng| -> String {
        match rng.below(4) {
            0 => "".to_string(),
            1 => "\n    ".to_string(),
            2 => "<!-- c -->".to_string(),
            _ => "\r\n\t".to_string(),
        }
    };
    match rng.below(21) {
        0 => (rng.bytes(32), "raw32"),
        1 => {
            let n = *rng.pick(&[0usize, 1, 31, 33, 64, 200, 65_537, 70_000, 200_000]);
            if rng.chance(1, 3) {
                // an opaque key file that happens to begin with a UTF-8 byte order mark (a passphrase file saved by an editor;
                // BOM + 32 bytes is not the "raw 32 bytes" format): every byte of it counts
                let mut v = vec![0xEF, 0xBB, 0xBF];
                v.extend(rng.bytes_pick(&[32usize, 29, 64, 10]));
                return (v, "arbitrary-with-bom");
            }
            (rng.bytes(n), "arbitrary")
        }
        2 => (hexkey(rng, 32, false).into_bytes(), "hex64-text"),
        3 | 4 => {
            // version 1 XML, 32-byte payload, varied layout between elements
            let k = rng.bytes(32);
            let (a, b, c) = (between(rng), between(rng), between(rng));
            (format!("<?xml version=\"1.0\" encoding=\"utf-8\"?>{a}<KeyFile>{b}<Meta><Version>1.00</Version></Meta>{c}<Key><Data>{}</Data></Key>{a}</KeyFile>", b64(&k)).into_bytes(), "xml-v1")
        }
        5 => {
            // version 1 XML, other payload lengths / no version element
            let n = *rng.pick(&[1usize, 3, 16, 31, 33, 64]);
            let k = rng.bytes(n);
            (format!("<KeyFile><Key><Data>{}</Data></Key></KeyFile>", b64(&k)).into_bytes(), "xml-v1-other-length")
        }
        6 | 7 | 8 => {
            // version 2 XML, hex payload with white space of every kind sprinkled in
            let k = rng.bytes(32);
            let hx = if rng.chance(1, 2) { hex::encode_upper(&k) } else { hex::encode(&k) };
            let mut s = String::new();
            s.push_str(*rng.pick(WS));
            for (i, ch) in hx.chars().enumerate() {
                s.push(ch);
                if i % 8 == 7 && rng.chance(2, 3) {
                    s.push_str(*rng.pick(WS));
                }
            }
            s.push_str(*rng.pick(WS));
            let (a, b) = (between(rng), between(rng));
            (format!("<?xml version=\"1.0\" encoding=\"utf-8\"?>\n<KeyFile>{a}<Meta>{b}<Version>2.0</Version>{b}</Meta>{a}<Key>{b}<Data Hash=\"A65F0C2D\">{s}</Data>{b}</Key>{a}</KeyFile>").into_bytes(), "xml-v2")
        }
        9 => {
            // version 2 with payload that is not hex
            (b"<KeyFile><Meta><Version>2.0</Version></Meta><Key><Data>zz 11</Data></Key></KeyFile>".to_vec(), "xml-v2-not-hex")
        }
        10 => (b"<KeyFile><Meta><Version>1.00</Version></Meta><Key></Key></KeyFile>".to_vec(), "xml-no-data"),
        11 => (b"<KeyFile><Key><Data>not base64!</Data></Key></KeyFile>".to_vec(), "xml-v1-not-base64"),
        12 => (b"<KeyFile><Key><Data>AAAA</Data></Key>".to_vec(), "xml-truncated"),
        13 => (b"<Not><A><KeyFile></KeyFile></A></Not>".to_vec(), "xml-other"),
        14 => {
            // another kind of XML document that happens to contain Data / Version elements (root is not KeyFile)
            let t = hex::encode(rng.bytes(8));
            (format!("<?xml version=\"1.0\"?><Workbook><Worksheet><Cell><Data Type=\"String\">{}</Data></Cell></Worksheet><Version>2.0</Version><Key><Data>{}</Data></Key></Workbook>", t, hex::encode(rng.bytes(32))).into_bytes(), "xml-other-with-data")
        }
        15 | 16 => {
            // a genuine key file written with a UTF-8 byte order mark (what .NET's XmlWriter and Notepad produce)
            let k = rng.bytes(32);
            let body = if rng.chance(1, 2) {
                format!("<?xml version=\"1.0\" encoding=\"utf-8\"?><KeyFile><Meta><Version>1.00</Version></Meta><Key><Data>{}</Data></Key></KeyFile>", b64(&k))
            } else {
                format!("<?xml version=\"1.0\" encoding=\"utf-8\"?><KeyFile><Meta><Version>2.0</Version></Meta><Key><Data>{}</Data></Key></KeyFile>", hex::encode_upper(&k))
            };
            let mut v = vec![0xEF, 0xBB, 0xBF];
            v.extend_from_slice(body.as_bytes());
            (v, "xml-with-bom")
        }
        19 | 20 => {
            // a genuine key file of either version that is damaged behind its payload (cut off, a stray byte after the end, written
            // twice in a row): not a well-formed document, so an opaque file, every byte of which counts
            let k = rng.bytes(32);
            let body = if rng.chance(1, 2) {
                format!("<?xml version=\"1.0\" encoding=\"utf-8\"?><KeyFile><Meta><Version>1.00</Version></Meta><Key><Data>{}</Data></Key></KeyFile>", b64(&k))
            } else {
                format!("<KeyFile><Meta><Version>2.0</Version></Meta><Key><Data>{}</Data></Key></KeyFile>", hex::encode_upper(&k))
            };
            let t = match rng.below(5) {
                0 => body.trim_end_matches("</KeyFile>").to_string(),
                1 => format!("{}\0", body),
                2 => format!("{}{}", body, body),
                3 => body.replacen("</Key></KeyFile>", "</Key><</KeyFile>", 1),
                _ => body.replacen("</Key></KeyFile>", "</Key></Keyfile>", 1),
            };
            (t.into_bytes(), "xml-damaged-after-payload")
        }
        17 => {
            // version 2 with Key before Meta
            let k = rng.bytes(32);
            (format!("<KeyFile><Key><Data>{}</Data></Key><Meta><Version>2.0</Version></Meta></KeyFile>", hex::encode(&k)).into_bytes(), "xml-v2-key-first")
        }
        _ => {
            // version 1 whose base64 payload lacks its padding or carries one '=' too many: not base64, the text itself is the key
            let k = rng.bytes_pick(&[31usize, 32, 34]);
            let mut t = b64(&k);
            if rng.chance(1, 2) { t = t.trim_end_matches('=').to_string(); } else { t.push('='); }
            (format!("<KeyFile><Meta><Version>1.00</Version></Meta><Key><Data>{}</Data></Key></KeyFile>", t).into_bytes(), "xml-v1-padding-off")
        }
    }
}

fn tiny_xml() -> Vec<u8> {
    b"<?xml version=\"1.0\" encoding=\"utf-8\"?><KeePassFile><Meta><Generator>ref</Generator></Meta><Root><Group><UUID>AAAAAAAAAAAAAAAAAAAAAQ==</UUID><Name>R</Name><IsExpanded>True</IsExpanded></Group></Root></KeePassFile>".to_vec()
}

pub fn run(ctx: &mut Ctx) {
    let count = ctx.count(300, 5000);
    for ci in 0..count {
        let mut rng = ctx.rng.fork();
        let pw: Option<String> = if rng.chance(3, 4) { Some(rng.pick(PASSWORDS).to_string()) } else { None };
        let (kf, kf_kind): (Option<Vec<u8>>, &str) = if ci % 60 == 59 {
            // a key file of many MiB (a photo, a song): size just above a power of two; delivered in pieces of 4096 bytes
            let exps: &[u32] = if ctx.thorough { &[20, 22, 24, 25, 26] } else { &[20, 22, 24] };
            let len = (1usize << *rng.pick(exps)) + 1 + rng.below(7) as usize;
            (Some(large_keyfile(&mut rng, len)), "opaque-large")
        } else if rng.chance(3, 4) {
            let (b, k) = gen_keyfile(&mut rng);
            (Some(b), k)
        } else {
            (None, "none")
        };
        let r = ref_composite(&pw, &kf);
        let key = make_key(&pw, &kf);

        // (1) real save authenticates under the reference composite
        let mut db = Database::new(DatabaseConfig {
            version: DatabaseVersion::KDB4(0),
            outer_cipher_config: OuterCipherConfig::ChaCha20,
            compression_config: CompressionConfig::None,
            inner_cipher_config: InnerCipherConfig::Plain,
            kdf_config: KdfConfig::Aes { rounds: 1 },
        });
        db.root.uuid = uuid::Uuid::from_u128(1);
        let mut buf = Vec::new();
        let saved = catch(|| db.save(&mut buf, key.clone()));
        let save_obs = match (&saved, &r) {
            (Ok(Ok(())), Some(rc)) => match kdbx::unwrap_kdbx4(&buf, rc) {
                Ok(_) => "authenticates".to_string(),
                Err(c) => format!("rejects:{}", c),
            },
            (Ok(Ok(())), None) => "saved-without-credentials".to_string(),
            (Ok(Err(e)), _) => format!("err:{}", if format!("{:?}", e).contains("IncorrectKey") { "key" } else { "other" }),
            (Err(p), _) => format!("panic:{}", p.site()),
        };
        // (2),(3) a file built independently under the reference composite opens; under a perturbed one it does not
        let (open_obs, open_wrong_obs) = match &r {
            Some(rc) => {
                let spec = Kdbx4Spec {
                    minor: 0, outer: Outer::Aes256, compress: true, master_seed: rng.bytes(32), iv: rng.bytes(16),
                    kdf: Kdf::Aes { rounds: 2, seed: rng.bytes(32) }, inner: Inner::ChaCha20, inner_key: rng.bytes(64),
                    attachments: vec![], xml: tiny_xml(),
                };
                let f = kdbx::build_kdbx4(&spec, &Layout::library_like(), rc).unwrap();
                let o = match catch(|| Database::parse(&f, key.clone())) {
                    Ok(Ok(_)) => "ok".to_string(),
                    Ok(Err(e)) => format!("err:{}", e),
                    Err(p) => format!("panic:{}", p.site()),
                };
                let mut wrong = rc.clone();
                wrong[rng.below(32) as usize] ^= 1 << rng.below(8);
                let f2 = kdbx::build_kdbx4(&spec, &Layout::library_like(), &wrong).unwrap();
                let o2 = match catch(|| Database::parse(&f2, key.clone())) {
                    Ok(Ok(_)) => "ok".to_string(),
                    Ok(Err(keepass::error::DatabaseOpenError::Key(_))) => "err:key".to_string(),
                    Ok(Err(e)) => format!("err:{}", e),
                    Err(p) => format!("panic:{}", p.site()),
                };
                (o, o2)
            }
            None => {
                let o = match catch(|| Database::parse(&buf_or_dummy(), key.clone())) {
                    Ok(Ok(_)) => "ok".to_string(),
                    Ok(Err(keepass::error::DatabaseOpenError::Key(_))) => "err:key".to_string(),
                    Ok(Err(e)) => format!("err:{}", e),
                    Err(p) => format!("panic:{}", p.site()),
                };
                (o, "n/a".to_string())
            }
        };
        let els = ref_elements(&pw, &kf);
        ctx.emit(json!({
            "op": "key",
            "password": pw,
            // a large key file travels as a 40-byte stand-in plus the SHA-256 of the real file (the model hashes the stand-in to that digest)
            "keyfile": kf.as_ref().map(|b| if b.len() > 65_536 {
                json!({"bytes": hex::encode(&b[..40]), "view": xml_view(b), "sha256": hex::encode(crate::kdbx::sha256(&[b])), "len": b.len()})
            } else {
                json!({"bytes": hex::encode(b), "view": xml_view(b)})
            }),
            "tags": [format!("keyfile:{}", kf_kind), if pw.is_some() { "password" } else { "no-password" }.to_string(),
                     if kf.as_ref().map(|f| uses_decoy(f)).unwrap_or(false) { "keyfile-given-twice" } else { "keyfile-given-once" }.to_string()],
            "nontrivial": kf.is_some() || pw.as_deref().map(|p| p.is_empty() || !p.is_ascii()).unwrap_or(false),
            "observed": {"save": save_obs, "open_ref": open_obs, "open_perturbed": open_wrong_obs},
            "real": {
                // the composite the real code uses, as established by (1) and (2); "unverified" otherwise
                "composite": match &r { Some(rc) if save_obs == "authenticates" && open_obs == "ok" => J::String(hex::encode(rc)), Some(_) => J::String("unverified".into()), None => J::Null },
                "elements": if els.is_empty() { J::Null } else { J::Array(els.iter().map(|e| J::String(hex::encode(e))).collect()) },
            },
        }));
    }
}

fn buf_or_dummy() -> Vec<u8> {
    let spec = Kdbx4Spec {
        minor: 0, outer: Outer::Aes256, compress: false, master_seed: vec![1; 32], iv: vec![2; 16],
        kdf: Kdf::Aes { rounds: 1, seed: vec![3; 32] }, inner: Inner::Plain, inner_key: vec![0],
        attachments: vec![], xml: tiny_xml(),
    };
    kdbx::build_kdbx4(&spec, &Layout::library_like(), &[7u8; 32]).unwrap()
}
