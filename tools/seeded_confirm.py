#!/usr/bin/env python3
"""Confirm a seeded change in its scratch worktree: the patch applies on /repo's HEAD, the library builds, the pinned
test suite passes with it, the demonstration fails with it and passes without it.  Usage: seeded_confirm.py <pid> [...]"""
import json, os, subprocess, sys, shutil, shlex

def sh(cmd, cwd, timeout=3600):
    env = dict(os.environ, CARGO_NET_OFFLINE='true')
    p = subprocess.run(cmd, cwd=cwd, shell=True, capture_output=True, text=True, timeout=timeout, env=env)
    return p.returncode, (p.stdout + p.stderr)[-3000:]

def confirm(pid):
    d = os.path.join(os.environ.get('SEED_DIR', '/tmp/seed'), pid)
    head = subprocess.check_output(['git', '-C', '/repo', 'rev-parse', 'HEAD'], text=True).strip()
    sh('git checkout -q -- . && git checkout -q --detach %s' % head, d)
    out = {}
    for X in ('A', 'B'):
        sd = '%s/SEEDED/%s' % (d, X)
        if not os.path.exists(sd + '/patch.diff'):
            continue
        r = {'pid': pid, 'variant': X}
        meta = json.load(open(sd + '/meta.json'))
        r['summary'] = meta.get('summary')
        rc, o = sh('git apply --check %s/patch.diff' % sd, d)
        if rc != 0:
            rc3, o3 = sh('git apply -3 %s/patch.diff' % sd, d)
            r['needed_3way'] = True
            if rc3 != 0:
                r['applies'] = False
                r['apply_log'] = o3[-800:]
                sh('git checkout -q -- . ; git reset -q', d)
                out[X] = r
                continue
            # regenerate the patch against the current HEAD
            sh('git reset -q', d)
            rcg, og = sh('git diff -- src > %s/patch.diff' % sd, d)
        else:
            sh('git apply %s/patch.diff' % sd, d)
        r['applies'] = True
        demo = 'tests/seeded_demo_%s.rs' % X
        shutil.copy(sd + '/demo.rs', os.path.join(d, demo))
        cmd = meta.get('demo_cmd') or ('cargo test --offline --features save_kdbx4,_merge,totp --test seeded_demo_%s' % X)
        cmd = cmd.split('  (')[0].split(' (')[0].strip()
        if '&&' in cmd:
            cmd = cmd.split('&&')[-1].strip()
        if '--offline' not in cmd:
            cmd += ' --offline'
        r['demo_cmd'] = cmd
        rc, o = sh('cargo build --offline --features save_kdbx4,_merge,totp', d)
        r['builds'] = rc == 0
        rc, o = sh(cmd, d)
        r['demo_fails_with_change'] = rc != 0
        r['demo_with_change_tail'] = o[-600:]
        os.rename(os.path.join(d, demo), os.path.join(d, demo + '.off'))
        rc, o = sh('cargo test --workspace --no-fail-fast --offline', d)
        r['baseline_tests_pass_with_change'] = rc == 0
        if rc != 0:
            r['baseline_tail'] = o[-1200:]
        os.rename(os.path.join(d, demo + '.off'), os.path.join(d, demo))
        sh('git checkout -q -- src', d)
        rc, o = sh(cmd, d)
        r['demo_passes_without_change'] = rc == 0
        if rc != 0:
            r['demo_without_change_tail'] = o[-800:]
        os.remove(os.path.join(d, demo))
        r['confirmed'] = all(r.get(k) for k in ('applies', 'builds', 'demo_fails_with_change', 'baseline_tests_pass_with_change', 'demo_passes_without_change'))
        out[X] = r
    json.dump(out, open(os.path.join(os.environ.get('SEED_DIR', '/tmp/seed'), 'confirm-%s.json' % pid), 'w'), indent=1)
    return out

if __name__ == '__main__':
    for pid in sys.argv[1:]:
        o = confirm(pid)
        for X, r in o.items():
            print(pid, X, 'CONFIRMED' if r.get('confirmed') else 'NOT-CONFIRMED', {k: v for k, v in r.items() if isinstance(v, bool)})
