#!/usr/bin/env python3
"""Run the registered checks against the seeded changes kept under /verif/seeded/<id>/.
For each: git -C /repo apply patch.diff; bin/check <property> (quick, then thorough if quick stays green);
git -C /repo checkout -- .   Results go to /verif/seeded/<id>/result.json and a table is printed.
Usage: seeded_eval.py [--also P1,P2] [id ...]      (SEED_TIERS=quick limits the tiers run)"""
import json, os, subprocess, sys, time

VERIF = os.path.dirname(os.path.dirname(os.path.abspath(__file__)))

def run(cmd, cwd=None, timeout=7200):
    p = subprocess.run(cmd, cwd=cwd, capture_output=True, text=True, timeout=timeout)
    return p.returncode, p.stdout + p.stderr

def clean_repo():
    rc, out = run(['git', '-C', '/repo', 'status', '--porcelain'])
    return out.strip() == ''

def evaluate(sid, also):
    d = os.path.join(VERIF, 'seeded', sid)
    meta = json.load(open(os.path.join(d, 'meta.json')))
    pid = meta['property']
    if not clean_repo():
        raise SystemExit('/repo is not clean')
    rc, out = run(['git', '-C', '/repo', 'apply', os.path.join(d, 'patch.diff')])
    if rc != 0:
        return {'id': sid, 'property': pid, 'applied': False, 'log': out[-500:]}
    res = {'id': sid, 'property': pid, 'applied': True, 'checks': {}}
    try:
        for p in [pid] + [a for a in also if a != pid]:
            for tier in os.environ.get('SEED_TIERS', 'quick,thorough').split(','):
                t0 = time.time()
                rc, out = run([os.path.join(VERIF, 'bin', 'check'), p, '--tier', tier])
                viol = [l for l in out.splitlines() if l.startswith('VIOLATION')]
                last = out.strip().splitlines()[-1] if out.strip() else ''
                replay = None
                kinds = []
                for l in viol[:6]:
                    path = l.split('replay=')[1].split()[0]
                    try:
                        j = json.load(open(path))
                        kinds.append(j.get('key') or j.get('kind'))
                    except Exception:
                        pass
                res['checks'].setdefault(p, {})[tier] = {'exit': rc, 'violations': len(viol), 'keys': kinds[:6],
                                                         'no_failing_input': any('no-failing-input-found' in l for l in viol),
                                                         'summary': last, 'wall_s': round(time.time() - t0, 1)}
                if rc != 0 or p != pid:
                    break
        t = res['checks'][pid]
        res['caught'] = any(v['exit'] == 1 for v in t.values())
        res['caught_at'] = next((k for k in ('quick', 'thorough') if k in t and t[k]['exit'] == 1), None)
        res['caught_with_failing_input'] = any(v['exit'] == 1 and not v['no_failing_input'] for v in t.values())
    finally:
        run(['git', '-C', '/repo', 'checkout', '--', '.'])
    json.dump(res, open(os.path.join(d, 'result.json'), 'w'), indent=1)
    return res

if __name__ == '__main__':
    args = sys.argv[1:]
    also = []
    if args and args[0] == '--also':
        also = args[1].split(',')
        args = args[2:]
    ids = args or sorted(os.listdir(os.path.join(VERIF, 'seeded')))
    for sid in ids:
        if not os.path.exists(os.path.join(VERIF, 'seeded', sid, 'patch.diff')):
            continue
        r = evaluate(sid, also)
        t = r.get('checks', {}).get(r['property'], {})
        print(sid, 'CAUGHT' if r.get('caught') else 'MISSED', r.get('caught_at'), [(k, v['exit'], v['keys'][:3]) for k, v in t.items()], flush=True)
