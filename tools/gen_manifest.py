#!/usr/bin/env python3
"""Writes /verif/MANIFEST.json from checker/props.py (claimed properties) and properties.jsonl (the rest go to not_applicable)."""
import json, os, sys
VERIF = os.path.abspath(os.path.join(os.path.dirname(__file__), '..'))
sys.path.insert(0, VERIF)
from checker import props

all_ids = [json.loads(l)['id'] for l in open(os.path.join(VERIF, 'properties.jsonl'))]
checks = []
for pid in all_ids:
    if pid not in props.PROPS:
        continue
    s = props.PROPS[pid]
    checks.append({
        'property_id': pid,
        'quick_cmd': 'bin/check %s --tier quick' % pid,
        'thorough_cmd': 'bin/check %s --tier thorough' % pid,
        'evidence_file': '/verif/evidence/%s.json' % pid,
        'replay_cmd_template': 'bin/check replay {path}',
        'engine': 'lean4-model+correspondence',
        'level_claimed': {
            'category': 'proof',
            'text': s.get('level_text', ''),
            'design_ref': 'DESIGN.md §7 ' + pid,
        },
        'level_note': s.get('level_note', 'Trusted: Lean kernel; hand-written model tied to the code by the differential correspondence run; upstream crates modelled.'),
        'technique': s.get('technique', 'Lean 4 theorems over a hand-written model + differential correspondence with the real library'),
    })
na = [{'property_id': pid, 'reason': props.NOT_CLAIMED.get(pid, 'check not built yet in this round; nothing is claimed for it')}
      for pid in all_ids if pid not in props.PROPS]
m = {
    'version': 1,
    'setup_cmd': 'bin/check setup',
    'hooks': {
        'guard': 'keepass_rs_verif',
        'enable': 'none needed: all observation points are public API; the harness builds /repo with --features "save_kdbx4 _merge totp"',
        'baseline_off_cmd': 'cd /repo && cargo test --workspace --no-fail-fast --offline',
        'source_commits': [],
        'add_only': True,
    },
    'engines': [{
        'name': 'lean4-model+correspondence', 'path': 'lean/ harness/ checker/',
        'serves_properties': [c['property_id'] for c in checks],
        'kind_free_text': 'Lean 4 model and theorems (lake project lean/), Rust correspondence harness linking the real library (harness/), Python orchestrator (bin/check)',
    }],
    'checks': checks,
    'notes': 'Exit 2 with CHECK-BROKEN means the check itself could not be built or run (no claim either way). See DESIGN.md.',
    'not_applicable': na,
}
json.dump(m, open(os.path.join(VERIF, 'MANIFEST.json'), 'w'), indent=1)
print('claimed:', [c['property_id'] for c in checks])
