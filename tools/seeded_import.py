#!/usr/bin/env python3
"""Import confirmed seeded changes from the scratch worktrees of a seeding round into /verif/seeded.
Usage: SEED_DIR=/tmp/seedN seeded_import.py <round> <suffixA> <suffixB> <pid> [...]
Runs tools/seeded_confirm.py for each pid (the patch applies on /repo's HEAD, the library builds, the pinned suite passes with it,
the demonstration fails with it and passes without it) and copies SEEDED/A, SEEDED/B to seeded/<pid>-<suffixA>, -<suffixB>
with the round and the confirmation recorded in meta.json.  Unconfirmed changes are reported and not copied."""
import json, os, shutil, subprocess, sys
VERIF = os.path.dirname(os.path.dirname(os.path.abspath(__file__)))
seed_dir = os.environ.get('SEED_DIR', '/tmp/seed')
rnd, sa, sb = int(sys.argv[1]), sys.argv[2], sys.argv[3]
for pid in sys.argv[4:]:
    subprocess.run([sys.executable, os.path.join(VERIF, 'tools', 'seeded_confirm.py'), pid], check=False,
                   stdout=subprocess.DEVNULL, env=dict(os.environ, SEED_DIR=seed_dir))
    try:
        conf = json.load(open(os.path.join(seed_dir, 'confirm-%s.json' % pid)))
    except Exception as e:
        print(pid, 'NO-CONFIRM-FILE', e); continue
    for X, suf in (('A', sa), ('B', sb)):
        r = conf.get(X)
        src = os.path.join(seed_dir, pid, 'SEEDED', X)
        if not r or not r.get('confirmed'):
            print(pid, X, 'NOT-CONFIRMED', {k: v for k, v in (r or {}).items() if isinstance(v, bool)}); continue
        dst = os.path.join(VERIF, 'seeded', '%s-%s' % (pid, suf))
        os.makedirs(dst, exist_ok=True)
        for f in ('patch.diff', 'demo.rs'):
            shutil.copy(os.path.join(src, f), os.path.join(dst, f))
        meta = json.load(open(os.path.join(src, 'meta.json')))
        meta['property'] = pid
        meta['round'] = rnd
        meta['confirmed_by_me'] = {k: v for k, v in r.items() if isinstance(v, bool)}
        json.dump(meta, open(os.path.join(dst, 'meta.json'), 'w'), indent=1)
        print(pid, X, 'IMPORTED as', os.path.basename(dst), '-', (meta.get('summary') or '')[:150])
