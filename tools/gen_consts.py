#!/usr/bin/env python3
"""Translator: constant tables of /repo/src -> lean/KpModel/Generated/Consts.lean (regenerated on every run).

usage: gen_consts.py <repo> <out.lean>
Prints `MISSING <item>` for every item it can no longer find (the caller treats that as an obligation that was not generated).
Only regular expressions over the source text; no Rust is executed.
"""
import sys, os, re


def read(repo, rel):
    try:
        return open(os.path.join(repo, 'src', rel), encoding='utf-8').read()
    except OSError:
        return ''


def main():
    repo, dst = sys.argv[1], sys.argv[2]
    missing = []
    nat = {}    # name -> int
    byts = {}   # name -> list of ints
    strs = {}   # name -> str

    def want_nat(name, text, pattern):
        m = re.search(pattern, text, re.S)
        if not m:
            missing.append(name)
            return
        v = m.group(1).replace('_', '')
        nat[name] = int(v, 16) if v.lower().startswith('0x') else int(v)

    def want_hex(name, text, const):
        m = re.search(r'const\s+' + const + r'\s*:\s*\[u8;\s*\d+\]\s*=\s*hex!\("([0-9a-fA-F]+)"\)', text)
        if not m:
            missing.append(name)
            return
        h = m.group(1)
        byts[name] = [int(h[i:i + 2], 16) for i in range(0, len(h), 2)]

    def want_str(name, text, const):
        m = re.search(r'const\s+' + const + r'\s*:\s*&str\s*=\s*"([^"]*)"', text)
        if not m:
            missing.append(name)
            return
        strs[name] = m.group(1)

    k4 = read(repo, 'format/kdbx4/mod.rs')
    for c in ['HEADER_END', 'HEADER_COMMENT', 'HEADER_OUTER_ENCRYPTION_ID', 'HEADER_COMPRESSION_ID', 'HEADER_MASTER_SEED',
              'HEADER_ENCRYPTION_IV', 'HEADER_KDF_PARAMS', 'INNER_HEADER_END', 'INNER_HEADER_RANDOM_STREAM_ID',
              'INNER_HEADER_RANDOM_STREAM_KEY', 'INNER_HEADER_BINARY_ATTACHMENTS']:
        want_nat(c, k4, r'pub const ' + c + r'\s*:\s*u8\s*=\s*(0x[0-9a-fA-F]+|\d+)\s*;')
    want_nat('HEADER_MASTER_SEED_SIZE', k4, r'pub const HEADER_MASTER_SEED_SIZE\s*:\s*usize\s*=\s*(\d+)\s*;')

    cfg = read(repo, 'config.rs')
    for c in ['CIPHERSUITE_AES256', 'CIPHERSUITE_TWOFISH', 'CIPHERSUITE_CHACHA20', 'KDF_AES_KDBX3', 'KDF_AES_KDBX4', 'KDF_ARGON2', 'KDF_ARGON2ID']:
        want_hex(c, cfg, c)
    for c in ['PLAIN', 'SALSA_20', 'CHA_CHA_20']:
        want_nat('INNER_' + c, cfg, r'const ' + c + r'\s*:\s*u32\s*=\s*(\d+)\s*;')
    for c in ['KDF_ID', 'KDF_MEMORY', 'KDF_SALT', 'KDF_ITERATIONS', 'KDF_PARALLELISM', 'KDF_VERSION', 'KDF_SEED', 'KDF_ROUNDS']:
        want_str(c, cfg, c)
    # fn seed_size: every arm returns the same literal
    m = re.search(r'fn seed_size\(&self\)\s*->\s*usize\s*\{(.*?)\n    \}', cfg, re.S)
    if m:
        vals = set(re.findall(r'=>\s*(\d+)', m.group(1)))
        if len(vals) == 1:
            nat['KDF_SEED_SIZE'] = int(vals.pop())
        else:
            missing.append('KDF_SEED_SIZE')
    else:
        missing.append('KDF_SEED_SIZE')
    # compression ids: dump() arms and try_from arms
    m = re.search(r'impl CompressionConfig \{.*?fn dump\(&self\)\s*->\s*\[u8; 4\]\s*\{(.*?)\n    \}', cfg, re.S)
    if m:
        arms = dict(re.findall(r'CompressionConfig::(\w+)\s*=>\s*\[(\d+),', m.group(1)))
        if 'None' in arms and 'GZip' in arms:
            nat['COMPRESSION_NONE'] = int(arms['None'])
            nat['COMPRESSION_GZIP'] = int(arms['GZip'])
        else:
            missing.append('COMPRESSION ids')
    else:
        missing.append('COMPRESSION ids')

    cph = read(repo, 'crypt/ciphers.rs')
    for name, ty in [('AES256', 'AES256Cipher'), ('TWOFISH', 'TwofishCipher'), ('SALSA20', 'Salsa20Cipher'), ('CHACHA20', 'ChaCha20Cipher'), ('PLAIN', 'PlainCipher')]:
        m = re.search(r'impl Cipher for ' + ty + r' \{(.*?)\n\}', cph, re.S)
        if not m:
            missing.append(name + '_IV_SIZE')
            missing.append(name + '_KEY_SIZE')
            continue
        body = m.group(1)
        mi = re.search(r'fn iv_size\(\)\s*->\s*usize\s*\{\s*(?://[^\n]*\n\s*)*(\d+)\s*\}', body)
        mk = re.search(r'fn key_size\(\)\s*->\s*usize\s*\{\s*(?://[^\n]*\n\s*)*(\d+)\s*\}', body)
        if mi:
            nat[name + '_IV_SIZE'] = int(mi.group(1))
        else:
            missing.append(name + '_IV_SIZE')
        if mk:
            nat[name + '_KEY_SIZE'] = int(mk.group(1))
        else:
            missing.append(name + '_KEY_SIZE')
    # the fixed Salsa20 nonce: the byte array literal inside `impl Salsa20Cipher { fn new … }`
    salsa = re.search(r'impl Salsa20Cipher \{(.*?)\n\}', cph, re.S)
    m = re.search(r'\[((?:\s*0x[0-9A-Fa-f]{2},?){8})\s*\]', salsa.group(1)) if salsa else None
    if m:
        byts['SALSA20_NONCE'] = [int(x, 16) for x in re.findall(r'0x([0-9A-Fa-f]{2})', m.group(1))]
    else:
        missing.append('SALSA20_NONCE')

    vd = read(repo, 'variant_dictionary.rs')
    want_nat('VARIANT_DICTIONARY_VERSION', vd, r'pub const VARIANT_DICTIONARY_VERSION\s*:\s*u16\s*=\s*(0x[0-9a-fA-F]+|\d+)\s*;')
    for c in ['VARIANT_DICTIONARY_END', 'U32_TYPE_ID', 'U64_TYPE_ID', 'BOOL_TYPE_ID', 'I32_TYPE_ID', 'I64_TYPE_ID', 'STR_TYPE_ID', 'BYTES_TYPE_ID']:
        want_nat(c, vd, r'pub const ' + c + r'\s*:\s*u8\s*=\s*(0x[0-9a-fA-F]+|\d+)\s*;')

    fm = read(repo, 'format/mod.rs')
    m = re.search(r'const KDBX_IDENTIFIER\s*:\s*\[u8; 4\]\s*=\s*\[([^\]]+)\]', fm)
    if m:
        byts['KDBX_IDENTIFIER'] = [int(x.strip(), 16) for x in m.group(1).split(',') if x.strip()]
    else:
        missing.append('KDBX_IDENTIFIER')
    for c in ['KEEPASS_1_ID', 'KEEPASS_2_ID', 'KEEPASS_LATEST_ID']:
        want_nat(c, fm, r'pub const ' + c + r'\s*:\s*u32\s*=\s*(0x[0-9a-fA-F]+)\s*;')
    for c in ['KDBX3_MAJOR_VERSION', 'KDBX4_MAJOR_VERSION', 'KDBX4_CURRENT_MINOR_VERSION']:
        want_nat(c, fm, r'pub const ' + c + r'\s*:\s*u16\s*=\s*(\d+)\s*;')
    want_nat('VERSION_HEADER_SIZE', fm, r'fn get_version_header_size\(\)\s*->\s*usize\s*\{\s*(\d+)\s*\}')

    hb = read(repo, 'hmac_block_stream.rs')
    m = re.search(r'pub const HMAC_KEY_END\s*:\s*\[u8; 1\]\s*=\s*hex!\("([0-9a-fA-F]{2})"\)', hb)
    if m:
        byts['HMAC_KEY_END'] = [int(m.group(1), 16)]
    else:
        missing.append('HMAC_KEY_END')

    db = read(repo, 'db/mod.rs')
    for c in ['EXPIRY_TIME_TAG_NAME', 'LAST_MODIFICATION_TIME_TAG_NAME', 'CREATION_TIME_TAG_NAME', 'LAST_ACCESS_TIME_TAG_NAME', 'LOCATION_CHANGED_TAG_NAME']:
        want_str(c, db, c)

    otp = read(repo, 'db/otp.rs')
    want_nat('TOTP_DEFAULT_PERIOD', otp, r'const DEFAULT_PERIOD\s*:\s*u64\s*=\s*(\d+)\s*;')
    want_nat('TOTP_DEFAULT_DIGITS', otp, r'const DEFAULT_DIGITS\s*:\s*u32\s*=\s*(\d+)\s*;')

    out = ['/- GENERATED by tools/gen_consts.py from /repo/src on every run. Do not edit. -/', 'namespace Kp.Gen', '']
    for k in sorted(nat):
        out.append('def %s : Nat := %d' % (k, nat[k]))
    out.append('')
    for k in sorted(byts):
        out.append('def %s : List UInt8 := [%s]' % (k, ', '.join(str(b) for b in byts[k])))
    out.append('')
    for k in sorted(strs):
        chars = ', '.join("Char.ofNat %d" % ord(ch) for ch in strs[k])
        out.append('def %s : List Char := [%s]' % (k, chars))
    out.append('')
    # anything that could not be extracted is declared opaque-free: a missing definition makes the tie theorems fail to elaborate
    out.append('end Kp.Gen')
    text = '\n'.join(out) + '\n'
    os.makedirs(os.path.dirname(dst), exist_ok=True)
    if not os.path.exists(dst) or open(dst).read() != text:
        open(dst, 'w').write(text)
    for m_ in missing:
        print('MISSING ' + m_)
    return 0


sys.exit(main())
