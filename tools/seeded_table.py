#!/usr/bin/env python3
"""Print the markdown table of the seeded changes (seeded/<id>/meta.json + result.json)."""
import json, glob, os, sys
VERIF = os.path.dirname(os.path.dirname(os.path.abspath(__file__)))
rows = []
for d in sorted(glob.glob(os.path.join(VERIF, 'seeded', '*'))):
    sid = os.path.basename(d)
    try:
        m = json.load(open(d + '/meta.json')); r = json.load(open(d + '/result.json'))
    except Exception:
        continue
    pid = r['property']
    t = r.get('checks', {}).get(pid, {})
    keys = []
    for v in t.values():
        keys += [k for k in v['keys'] if k]
    how = ', '.join(dict.fromkeys(keys))[:100]
    others = [p for p, c in r.get('checks', {}).items() if p != pid and any(v['exit'] == 1 for v in c.values())]
    summ = (m.get('summary') or '').replace('|', '/').replace('\n', ' ')
    if len(summ) > 140:
        summ = summ[:137] + '…'
    rnd = m.get('round', 1)
    res = ('caught (%s)' % r.get('caught_at')) if r.get('caught') else 'MISSED'
    if m.get('void_after') and not r.get('caught'):
        res = 'void since %s: %s' % (m['void_after'], m.get('void_reason', 'no longer breaks the property'))
    if others:
        res += '; also ' + ', '.join(others)
    rows.append('| %s | %d | %s | %s | `%s` |' % (sid, rnd, summ, res, how))
print('| id | round | change | check of its property | reported as |\n|---|---|---|---|---|')
print('\n'.join(rows))
